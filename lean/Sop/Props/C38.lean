import Sop.Lemmas.Alias
/-! # C38 — values returned by reads are private to the caller

`Sop.Model.Alias` is a hand transcription of Go's aliasing in `cache/l1cache.go` (shallow `CopyTo` clones on every
path into and out of the L1 node cache: hit, L1-miss/L2-hit fill, fill after a blob load, `populateMru`),
`btree.GetCurrentValue` (`*item.Value`), `unfetchCurrentValue` and `nodeRepositoryBackend.get` (the three-level lookup
L1 → L2 → blob); the correspondence run (harness/cmd/c38) compares every read of real transactions with it, with the
cache tiers evicted separately and together between transactions.

Privacy = non-interference: writing through a value a read returned — and, more generally, anything a transaction
does to what it read without committing it — changes nothing any later operation can observe.  `Statement_C38` says
so for in-place writes, for every history; it is FALSE for reference kinds (`[]byte`, maps, slices, pointers) kept
in the node (`C38_counterexample`: every clone shares the VALUE cells; `C38_counterexample_l2_fill`: also the clone the
L2-hit fill makes; `C38_counterexample_durable`: another transaction's commit of an unrelated update marshals the
shared cell and makes the never-committed mutation durable).  What is proved, for EVERY history over the
three-level lookup:
* `C38_node_private` — the node OBJECT in L1 is never the node object a transaction works on (every fill installs
  a copy, every hit hands out a copy);
* `C38_uncommitted_private` (values in the node, no in-place writes) and `C38_uncommitted_private_value_kinds`
  (value kinds, with in-place writes): every read returns the committed content or the transaction's own update — a
  rolled-back update never reaches another transaction;
* `C38_private_fetched` (values fetched from value blobs, any kind, any in-place writes): every read of a key the
  transaction's cursor is not already on returns the durable content — a fetched value is hung on the transaction's
  own node object only;
* `C38_private_value_kinds`: for value kinds in-place writes are unobservable.
`C38_uncloned_fill_witness`: with the L2-hit fill storing the node it returns (`uncloned`, not the code) the last
three fail on two tiny histories. -/
namespace Sop.C38
open Sop.Alias

/-- the property at full strength: in-place writes through returned values are unobservable -/
def Statement_C38 : Prop :=
  ∀ (vnf : Bool) (disk : Disk) (ops : List Op),
    reads { vnf := vnf, disk := disk } ops = reads { vnf := vnf, disk := disk } (ops.filter (fun o => !isMutate o))

/-! ## counterexamples (the code as it stands: reference kinds kept in the node) -/

def disk0 : Disk := [(1, 11), (2, 22), (3, 33)]

/-- DESIGN.md's witness: transaction A reads `[]byte` key 1, writes through it, rolls back; B and C read 77 -/
def jello : List Op :=
  [.begin, .read 1 .byRef, .mutate 77, .rollback, .begin, .read 1 .byRef, .commit, .begin, .read 1 .byRef, .rollback]

theorem C38_counterexample_later_reads :
    reads { vnf := false, disk := disk0 } jello = [some 11, some 77, some 77] ∧
    reads { vnf := false, disk := disk0 } (jello.filter (fun o => !isMutate o)) = [some 11, some 11, some 11] := by decide +kernel

/-- … and after B commits an update of ANOTHER key, A's rolled-back mutation is on disk: a cold process reads it -/
def durable : List Op :=
  [.begin, .read 1 .byRef, .mutate 77, .rollback, .begin, .update 2 55, .commit, .clear, .begin, .read 1 .byRef, .rollback, .cold 1]

theorem C38_counterexample_durable :
    reads { vnf := false, disk := disk0 } durable = [some 11, some 77, some 77] ∧
    Alias.get (runFrom { vnf := false, disk := disk0 } durable).1.disk 1 = some 77 := by decide +kernel

theorem C38_counterexample : ¬ Statement_C38 := by
  intro h
  have := h false disk0 jello
  rw [C38_counterexample_later_reads.1, C38_counterexample_later_reads.2] at this
  exact absurd this (by decide)

/-- the same sharing through the L1-miss/L2-hit fill: the L1 entry is a clone of the node just unmarshalled from the L2
payload — it shares the VALUE cells with the transaction that caused the fill (the node object is private, the
reference-typed values in it are not) -/
def jelloL2 : List Op :=
  [.begin, .read 1 .byRef, .rollback, .evict1, .begin, .read 1 .byRef, .mutate 77, .rollback, .begin, .read 1 .byRef, .rollback]

theorem C38_counterexample_l2_fill :
    reads { vnf := false, disk := disk0 } jelloL2 = [some 11, some 11, some 77] := by decide +kernel

/-- **No transaction ever works on the node object the L1 cache holds** — after every history, any value kind, any
placement, any eviction of any cache tier at any point. -/
theorem C38_node_private (vnf : Bool) (disk : Disk) (ops : List Op) :
    sharesNode (runFrom { vnf := vnf, disk := disk } ops).1 = false :=
  priv_not_shared _ (run_priv ops _ (priv_init vnf disk))

/-- **Fetched values are private.**  In a store whose values live in value blobs, after ANY history — any value kind,
any in-place writes through returned values by anybody at any time, evictions of any cache tier (L1 node entry, L1
handles, L2, all) between and inside transactions —, a read of a key by a transaction whose cursor is not already on
that key returns exactly the durable content, which no history changes: a fetched value is hung on the transaction's
own node object, never on the one in L1. -/
theorem C38_private_fetched (disk : Disk) (ops : List Op) (k : Nat) (kind : Kind) (t : Txn)
    (ht : (runFrom { vnf := true, disk := disk } ops).1.txn = some t) (hcur : t.cur ≠ some k) :
    ((runFrom { vnf := true, disk := disk } ops).1.apply (.read k kind)).2 = Alias.get disk k := by
  obtain ⟨hv, hd⟩ := run_vinv ops _ (vinv_init disk)
  rw [read_fetches _ hv t ht k kind hcur, hd]

/-- **Uncommitted work is private.**  In a store whose values are in the node, for EVERY history of reads, updates,
commits, rollbacks, evictions of any cache tier (the L1 node entry, the L1 handles, L2, everything) and reads by a cold
process — no in-place writes through returned values —, every read returns exactly what the specification map holds:
the committed content, or the transaction's own update.  In particular an update that was rolled back, and a value
hung on a slot, never reach another transaction: whatever level of the three-level lookup served the node (L1 hit, L2
hit, blob), the transaction worked on its own node object. -/
theorem C38_uncommitted_private (disk : Disk) (ops : List Op) (hm : ∀ op ∈ ops, isMutate op = false) :
    reads { vnf := false, disk := disk } ops = specReads { committed := disk } ops :=
  run_u ops _ _ (uinv_init disk) hm

/-- **Value kinds are private.**  When every read returns a value kind (`string`, plain struct), deleting every
in-place write from a history changes no read, in any placement, with or without evictions and commits. -/
theorem C38_private_value_kinds (ops : List Op) : ∀ (s : St), s.ret = none → allByValue ops = true →
    reads s ops = reads s (ops.filter (fun o => !isMutate o)) := by
  induction ops with
  | nil => intros; rfl
  | cons op rest ih =>
    intro s hr hv
    by_cases hmu : isMutate op = true
    · cases op <;> simp [isMutate] at hmu
      rename_i x
      have : (s.apply (.mutate x)).1 = s := by simp [St.apply, hr]
      rw [filter_drop _ _ rfl]
      simp only [reads]
      rw [this]
      exact ih s hr (by simpa [allByValue] using hv)
    · have hmu' : isMutate op = false := by simpa using hmu
      rw [filter_keep _ _ hmu']
      have hret : (s.apply op).1.ret = none := by
        apply apply_ret_none s op hr
        intro k kind hop
        subst hop
        simp only [allByValue, Bool.and_eq_true, beq_iff_eq] at hv
        exact hv.1
      have hrest : allByValue rest = true := by
        cases op <;> simp_all [allByValue]
      have := ih (s.apply op).1 hret hrest
      cases op <;> simp_all [reads, isMutate]

/-- uncommitted work is private for value kinds, also when callers write through what they read -/
theorem C38_uncommitted_private_value_kinds (disk : Disk) (ops : List Op) (hv : allByValue ops = true) :
    reads { vnf := false, disk := disk } ops = specReads { committed := disk } (ops.filter (fun o => !isMutate o)) := by
  rw [C38_private_value_kinds ops _ rfl hv]
  apply C38_uncommitted_private
  intro op hop
  have := (List.mem_filter.1 hop).2
  simpa using this

/-! ## the variant in which the L1-miss/L2-hit fill stores the node it returns (`uncloned`): NOT the code -/

/-- value kind, values in the node: the node leaves L1 while L2 keeps it; a transaction updates a key and ROLLS BACK;
the next transaction of the process reads the rolled-back value (the cold process does not) … -/
def seedUpdate : List Op :=
  [.begin, .read 1 .byValue, .rollback, .evict1, .begin, .read 1 .byValue, .update 1 55, .rollback,
   .begin, .read 1 .byValue, .rollback, .cold 1]

/-- … values fetched from value blobs: a read-only transaction writes through the `[]byte` it fetched; the next
transaction of the process finds that cell hung on the slot -/
def seedFetched : List Op :=
  [.begin, .read 1 .byRef, .rollback, .evict1, .begin, .read 1 .byRef, .mutate 77, .rollback,
   .begin, .read 1 .byRef, .rollback, .cold 1]

/-- the theorems above are about the code (`uncloned = false`); with the uncloned fill both fail, on the tiny histories
the harness replays first (directed corpus `corpus-evict1-update-rollback`, `corpus-evict1-mutate-vnf`), while the
model of the code returns the committed content -/
theorem C38_uncloned_fill_witness :
    reads { vnf := false, disk := disk0, uncloned := true } seedUpdate = [some 11, some 11, some 55, some 11] ∧
    reads { vnf := false, disk := disk0 } seedUpdate = [some 11, some 11, some 11, some 11] ∧
    specReads { committed := disk0 } seedUpdate = [some 11, some 11, some 11, some 11] ∧
    reads { vnf := true, disk := disk0, uncloned := true } seedFetched = [some 11, some 11, some 77, some 11] ∧
    reads { vnf := true, disk := disk0 } seedFetched = [some 11, some 11, some 11, some 11] ∧
    -- and the invariant that fails (`Priv.txn`): the L1 entry IS the transaction's node object
    sharesNode (runFrom { vnf := false, disk := disk0, uncloned := true } (seedUpdate.take 6)).1 = true ∧
    sharesNode (runFrom { vnf := false, disk := disk0 } (seedUpdate.take 6)).1 = false := by decide +kernel

/-- the hypotheses are satisfiable by non-trivial histories -/
def sampleValue : List Op :=
  [.begin, .read 1 .byValue, .mutate 77, .update 2 55, .commit, .evict1, .begin, .read 1 .byValue, .read 2 .byValue, .update 1 66,
   .rollback, .evict2, .begin, .read 1 .byValue, .rollback, .clear, .cold 2]

example : allByValue sampleValue = true ∧
    reads { vnf := false, disk := disk0 } sampleValue = [some 11, some 11, some 55, some 11, some 55] := by decide +kernel

/-- a fetched store: someone writes through a `[]byte` it read, after an eviction of the L1 entry; the next transaction
reads the key -/
example : reads { vnf := true, disk := disk0 } jelloL2 = [some 11, some 11, some 11] ∧
    reads { vnf := true, disk := disk0 } jello = [some 11, some 11, some 11] := by decide +kernel

end Sop.C38
