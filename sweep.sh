#!/bin/sh
# sweep.sh <tier> <seed> [ids...]: run checks in sequence, print one line each (used with `vp run` for unchanged-tree sweeps)
tier=$1; seed=$2; shift 2
ids="$@"
[ -z "$ids" ] && ids=$(cat claimed.txt)
./setup >/dev/null 2>&1
for id in $ids; do
  out=$(./check $id --tier $tier --seed $seed 2>/dev/null | grep -v "^KNOWN-FINDING" | tail -3 | tr '\n' ' ')
  echo "$id seed=$seed tier=$tier :: $out"
done
