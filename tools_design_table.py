#!/usr/bin/env python3
"""Regenerates the 'as built' table in DESIGN.md (between the AS-BUILT markers) from props/, findings/, claimed.txt, seeded/."""
import json, os, glob, re
ROOT = os.path.dirname(os.path.abspath(__file__))
props = [json.loads(l) for l in open(os.path.join(ROOT, "properties.jsonl"))]
claimed = set(open(os.path.join(ROOT, "claimed.txt")).read().split())
rows = []
for p in props:
    i = p["id"]
    pf = os.path.join(ROOT, "props", i + ".json")
    c = json.load(open(pf)) if os.path.exists(pf) else {}
    fs = []
    ff = os.path.join(ROOT, "findings", i + ".json")
    if os.path.exists(ff):
        fs = json.load(open(ff))
    open_f = [f.get("id", "?") for f in fs if f.get("status") == "open"]
    fixed = ["%s→%s" % (f.get("id", "?"), f.get("commit", "?")) for f in fs if f.get("status") == "fixed"]
    seeds = sorted(os.path.basename(d) for d in glob.glob(os.path.join(ROOT, "seeded", i + "*")))
    status = "claimed" if i in claimed else ("not applicable" if i == "C36" else "not claimed")
    rows.append("| %s | %s | %d | %s | %s | %s | %s |" % (
        i, status, len(c.get("theorems", [])), (c.get("partial") or "—").replace("|", "/")[:220],
        ", ".join(open_f) or "—", ", ".join(fixed) or "—", ", ".join(seeds) or "—"))
table = "| id | status | theorems audited | what is partial (from props) | open findings | fixed (finding→commit) | seeded changes |\n|---|---|---|---|---|---|---|\n" + "\n".join(rows)
p = os.path.join(ROOT, "DESIGN.md")
s = open(p).read()
a, b = "<!-- AS-BUILT-TABLE-BEGIN -->", "<!-- AS-BUILT-TABLE-END -->"
if a in s:
    s = s[:s.index(a) + len(a)] + "\n" + table + "\n" + s[s.index(b):]
    open(p, "w").write(s)
# seeded changes table
rows = []
for d in sorted(glob.glob(os.path.join(ROOT, "seeded", "*"))):
    mf = os.path.join(d, "meta.json")
    if not os.path.exists(mf):
        continue
    m = json.load(open(mf))
    caught = []
    for c, r in (m.get("checks") or {}).items():
        for tier, v in r.items():
            if v.get("exit") == 1:
                fr = v.get("first_replay") or {}
                how = fr.get("signature") or ("; ".join(fr.get("theorem_or_tie") or [])[:90] if fr.get("theorem_or_tie") else "")
                nf = " (no-failing-input-found)" if any("no-failing-input-found" in x for x in v.get("violations", [])) else ""
                caught.append("%s %s%s: %s" % (c, tier, nf, (how or "").replace("|", "/")[:110]))
                break
    rd = os.path.join(d, "README.md")
    first = ""
    if os.path.exists(os.path.join(d, "patch.diff")):
        files = re.findall(r"^\+\+\+ b/(\S+)", open(os.path.join(d, "patch.diff")).read(), re.M)
        first = ", ".join(sorted(set(files)))
    earlier = ""
    missed_before = [h for h in (m.get("history") or []) if not h.get("caught_by")]
    if missed_before and caught:
        earlier = " (first **missed**, at verif %s; caught after the check was strengthened)" % missed_before[0].get("verif_head", "?")
    rows.append("| %s | %s | %s | demo with patch %s / without %s | %s%s |" % (
        os.path.basename(d), m.get("property"), first, m.get("demo_with_patch"), m.get("demo_without_patch"),
        "<br>".join(caught) if caught else "**missed** by " + ", ".join((m.get("checks") or {}).keys()), earlier))
t2 = "| seeded change | property | file(s) changed | confirmation | caught by |\n|---|---|---|---|---|\n" + "\n".join(rows)
s = open(p).read()
a, b = "<!-- SEEDED-TABLE-BEGIN -->", "<!-- SEEDED-TABLE-END -->"
if a in s:
    s = s[:s.index(a) + len(a)] + "\n" + t2 + "\n" + s[s.index(b):]
    open(p, "w").write(s)
print(len(rows), "seeded rows")
# findings overview
frows = []
for ff in sorted(glob.glob(os.path.join(ROOT, "findings", "*.json"))):
    for f in json.load(open(ff)):
        st = f.get("status", "?")
        if st == "fixed":
            st = "fixed in /repo " + str(f.get("commit", "?"))
        what = (f.get("what") or "").replace("|", "/").replace("\n", " ")
        frows.append("| %s | %s | %s |" % (f.get("id", "?"), st, what[:330] + ("…" if len(what) > 330 else "")))
t3 = "| finding | status | what fails (abridged; witness and signature in findings/<ID>.json) |\n|---|---|---|\n" + "\n".join(frows)
s2 = open(p).read()
a, b = "<!-- FINDINGS-TABLE-BEGIN -->", "<!-- FINDINGS-TABLE-END -->"
if a in s2:
    s2 = s2[:s2.index(a) + len(a)] + "\n" + t3 + "\n" + s2[s2.index(b):]
    open(p, "w").write(s2)
print(len(frows), "findings")
