#!/usr/bin/env python3
"""Regenerate MANIFEST.json from props/*.json (one file per claimed property) and na.json (reasons for the rest)."""
import json, os, glob
ROOT = os.path.dirname(os.path.abspath(__file__))
props = [json.loads(l) for l in open(os.path.join(ROOT, "properties.jsonl"))]
ids = [p["id"] for p in props]
claimed = {}
for f in sorted(glob.glob(os.path.join(ROOT, "props", "C*.json"))):
    try:
        c = json.load(open(f))
    except Exception as e:
        print("skipping unreadable", f, e); continue
    if not all(k in c for k in ("id", "module", "theorems", "level_text", "level_note")):
        print("skipping incomplete", f); continue
    claimed[c["id"]] = c
na = json.load(open(os.path.join(ROOT, "na.json")))
# the lead lists here the properties whose checks have been reviewed and pass on the unchanged tree
ready = set(open(os.path.join(ROOT, "claimed.txt")).read().split())
claimed = {k: v for k, v in claimed.items() if k in ready}
checks = []
for i in ids:
    if i not in claimed:
        continue
    c = claimed[i]
    checks.append({
        "property_id": i,
        "quick_cmd": "./check %s --tier quick" % i,
        "thorough_cmd": "./check %s --tier thorough" % i,
        "evidence_file": "/verif/evidence/%s.json" % i,
        "replay_cmd_template": "./check %s --replay {path}" % i,
        "engine": "lean4+correspondence",
        "level_claimed": {"category": c.get("level", "proof"), "text": c["level_text"], "design_ref": c.get("design_ref", "DESIGN.md §6 " + i)},
        "level_note": c["level_note"],
        "technique": c.get("technique", "Lean 4 theorems about an executable model + differential correspondence check against the Go code"),
    })
m = {
    "version": 1,
    "setup_cmd": "./setup",
    "hooks": {
        "guard": "verif",
        "enable": "go build -tags verif -overlay .bin/overlay.json (files under harness/overlay/<pkg>/ are compiled into /repo/<pkg>/ without being written there)",
        "baseline_off_cmd": "cd /repo && for m in . adapters/cassandra adapters/redis ai incfs infs jsondb search; do (cd $m && go test -vet=off -count=1 -timeout 25m ./...); done",
        "source_commits": [],
        "add_only": True,
    },
    "engines": [{"name": "lean4+correspondence", "path": "/verif/check", "serves_properties": [c["property_id"] for c in checks],
                 "kind_free_text": "Lean 4 theorems over executable models (lean/Sop), regenerated facts, Go differential harness (harness/cmd/drive) driven through a line protocol"}],
    "checks": checks,
    "not_applicable": [{"property_id": i, "reason": na.get(i, "check not built yet; see DESIGN.md section 6 for the plan")} for i in ids if i not in claimed],
    "notes": "Every check: ./check <id>. Theorems in lean/Sop/Props/<id>.lean; models in lean/Sop/Model; known findings in known_findings.json.",
}
json.dump(m, open(os.path.join(ROOT, "MANIFEST.json"), "w"), indent=1)
kf = []
for f in sorted(glob.glob(os.path.join(ROOT, "findings", "C*.json"))):
    kf.extend(json.load(open(f)))
json.dump(kf, open(os.path.join(ROOT, "known_findings.json"), "w"), indent=1)
open(os.path.join(ROOT, "lean", "Sop.lean"), "w").write("".join("import %s\n" % claimed[i]["module"] for i in ids if i in claimed))
print("claimed", len(checks), "not claimed", len(m["not_applicable"]))
