#!/usr/bin/env python3
"""tools_seed.py <PROPERTY-ID> <seed-out-dir> [--name NAME] [--checks C01,C07]
Confirms a seeded change (patch.diff + demonstration) in a scratch worktree and runs our checks against it:
 1. worktree of /repo HEAD, apply patch, build;
 2. demonstration FAILS with the patch and PASSES without it;
 3. ./check <id> (quick, then thorough if quick stays quiet) with VERIF_REPO=<worktree>, for the property and any extra checks;
 4. stores patch, demonstration and meta.json under /verif/seeded/<NAME>/ ; removes the worktree.
"""
import json, os, re, shutil, subprocess, sys, time
ROOT = os.path.dirname(os.path.abspath(__file__))
pid, out = sys.argv[1], sys.argv[2]
name = pid
checks = [pid]
a = sys.argv[3:]
while a:
    if a[0] == "--name": name = a[1]; a = a[2:]
    elif a[0] == "--checks": checks = a[1].split(","); a = a[2:]
    else: a = a[1:]
wt = "/tmp/sv-" + name.lower()
def sh(cmd, cwd=None, timeout=3600, env=None):
    p = subprocess.run(cmd, shell=True, cwd=cwd, stdout=subprocess.PIPE, stderr=subprocess.STDOUT, text=True, timeout=timeout, env=env)
    return p.returncode, p.stdout
subprocess.run("git -C /repo worktree remove --force %s" % wt, shell=True, stderr=subprocess.DEVNULL)
rc, o = sh("git -C /repo worktree add --detach %s HEAD" % wt)
meta = {"property": pid, "name": name, "repo_head": sh("git -C /repo rev-parse --short HEAD")[1].strip(), "ran": []}
try:
    patch = os.path.join(out, "patch.diff")
    rc, o = sh("git apply %s" % patch, cwd=wt)
    meta["patch_applies"] = rc == 0
    if rc != 0:
        print("patch does not apply:", o); raise SystemExit(1)
    # demonstration: where and how
    dp = open(os.path.join(out, "demo_path.txt")).read().replace("<repo>/", "").replace("<worktree>/", "").replace("`", " ")
    cands = [m for m in re.findall(r"((?:[\w.-]+/)+[\w.-]+_test\.go|(?:[\w.-]+/)+main\.go)", dp) if not m.endswith("/demo_test.go") and m != "demo/main.go"]
    target = cands[0] if cands else None
    cmdm = re.search(r"((?:cd\s+[^\s&;]+\s*&&\s*)?go (?:test|run)[^\n(]*)", dp)
    cmd = cmdm.group(1).strip() if cmdm else None
    demo_src = next((os.path.join(out, f) for f in ("demo_test.go", "demo/main.go", "main.go") if os.path.exists(os.path.join(out, f))), None)
    ov = os.path.join(out, "demo_override.txt")   # two lines: target path in the tree, command (written by the lead when demo_path.txt is free text)
    if os.path.exists(ov):
        target, cmd = [l.strip() for l in open(ov).read().strip().splitlines()[:2]]
    meta["demo_target"], meta["demo_cmd"] = target, cmd
    if not (target and cmd and demo_src):
        print("cannot parse demo_path.txt:", dp); raise SystemExit(1)
    os.makedirs(os.path.dirname(os.path.join(wt, target)) or wt, exist_ok=True)
    shutil.copy(demo_src, os.path.join(wt, target))
    failed = lambda rc, o: rc != 0 or re.search(r"^(--- FAIL|FAIL\b|panic:)", o, re.M) is not None   # the command may end in a pipe
    rc1, o1 = sh(cmd, cwd=wt, timeout=1800)
    rc1 = 1 if failed(rc1, o1) else 0
    meta["demo_with_patch"] = "FAIL" if rc1 != 0 else "PASS"
    sh("git apply -R %s" % patch, cwd=wt)
    rc2, o2 = sh(cmd, cwd=wt, timeout=1800)
    rc2 = 1 if failed(rc2, o2) else 0
    meta["demo_without_patch"] = "FAIL" if rc2 != 0 else "PASS"
    meta["ran"].append(cmd)
    sh("git apply %s" % patch, cwd=wt)
    os.remove(os.path.join(wt, target))
    confirmed = rc1 != 0 and rc2 == 0
    meta["confirmed"] = confirmed
    print("demo with patch:", meta["demo_with_patch"], "| without:", meta["demo_without_patch"])
    if not confirmed:
        print((o1[-1500:] if rc1 == 0 else o2[-1500:]))
    # our checks
    meta["checks"] = {}
    env = dict(os.environ, VERIF_REPO=wt)
    for c in checks:
        res = {}
        for tier in ("quick", "thorough"):
            t0 = time.time()
            rc, o = sh("./check %s --tier %s 2>/dev/null" % (c, tier), cwd=ROOT, env=env, timeout=7200)
            viol = [l for l in o.splitlines() if l.startswith("VIOLATION")]
            summ = [l for l in o.splitlines() if l.startswith(c + " ")]
            res[tier] = {"exit": rc, "violations": viol[:6], "summary": summ[-1] if summ else "", "wall_s": round(time.time() - t0)}
            meta["ran"].append("VERIF_REPO=%s ./check %s --tier %s" % (wt, c, tier))
            print(c, tier, "exit", rc, (viol[0] if viol else ""), summ[-1][:200] if summ else "")
            if rc == 1 and viol:
                # keep the first replay as illustration
                m = re.search(r"replay=(\S+)", viol[0])
                if m and os.path.exists(os.path.join(ROOT, m.group(1))):
                    try:
                        r = json.load(open(os.path.join(ROOT, m.group(1))))
                        res[tier]["first_replay"] = {k: r.get(k) for k in ("kind", "signature", "what", "theorem_or_tie", "failing_input_found")}
                    except Exception:
                        pass
                break
        meta["checks"][c] = res
    meta["caught_by"] = [c for c, r in meta["checks"].items() if any(v["exit"] == 1 for v in r.values())]
    dst = os.path.join(ROOT, "seeded", name)
    os.makedirs(dst, exist_ok=True)
    # keep what earlier runs of our checks said about this change (missed -> strengthened -> caught)
    hist = []
    if os.path.exists(os.path.join(dst, "meta.json")):
        try:
            old = json.load(open(os.path.join(dst, "meta.json")))
            hist = old.get("history", [])
            if old.get("confirmed"):
                hist.append({"verif_head": old.get("verif_head", "?"), "repo_head": old.get("repo_head"), "caught_by": old.get("caught_by"),
                             "summaries": {c: {t: v.get("summary", "")[:160] for t, v in r.items()} for c, r in (old.get("checks") or {}).items()}})
        except Exception:
            pass
    meta["history"] = hist
    meta["verif_head"] = sh("git -C %s rev-parse --short HEAD" % ROOT)[1].strip()
    shutil.copy(patch, os.path.join(dst, "patch.diff"))
    shutil.copy(demo_src, os.path.join(dst, os.path.basename(demo_src)))
    shutil.copy(os.path.join(out, "demo_path.txt"), os.path.join(dst, "demo_path.txt"))
    if os.path.exists(os.path.join(out, "README.md")):
        shutil.copy(os.path.join(out, "README.md"), os.path.join(dst, "README.md"))
        rd = open(os.path.join(out, "README.md")).read()
        meta["needs"] = rd[:1200]
    json.dump(meta, open(os.path.join(dst, "meta.json"), "w"), indent=1)
    print("caught by:", meta["caught_by"])
finally:
    subprocess.run("git -C /repo worktree remove --force %s" % wt, shell=True, stderr=subprocess.DEVNULL)
    subprocess.run("rm -f %s/.bin/drive-*.alt-%s" % (ROOT, re.sub(r"[^A-Za-z0-9]+", "_", wt).strip("_")), shell=True)
